//! C09 (builds are deterministic) -- two defects of the CLEAN tree.
//!
//! 1. `reused_generator_gives_the_same_program_as_a_fresh_one`
//!    A module constant whose definition calls mutually recursive functions is compiled, the
//!    first time it is referenced, in the middle of the code generation of the program that
//!    references it. Hoisting the constant's own functions overwrites the generator's
//!    `cyclic_functions` table (name / member order of the cycle as seen from the constant),
//!    and the enclosing program then emits its own calls into the cycle with those entries.
//!    A generator that already holds the constant in `cached_constants` (because an earlier
//!    validator / test referenced it) skips all that. So the very same validator compiles to a
//!    different program (here: `is_odd` silently becomes `is_even`) -- or, with a slightly
//!    different call pattern, to a compiler panic (`FreeUnique __cyclic_function_0`) -- in a
//!    fresh generator, and to the right program in a re-used one.
//!
//! 2. `blueprint_with_all_types_is_the_same_for_every_build`
//!    `Blueprint::new(.., export_all_types = true)` walks `modules.values()` and
//!    `type_info.types.values()` (std HashMaps) and swallows "unsupported type" errors, but
//!    `Definitions::register` leaves the `None` placeholder of every type on the failing path
//!    behind. Whether a type that *contains* an unsupported type ends up as `null` or as a full
//!    schema depends on which of the two the HashMap yields first, i.e. on the process' /
//!    instance's random hash seed.
use aiken_lang::ast::{Definition, Tracing, TypedValidator};
use aiken_project::{
    Project, options::BlueprintExport, telemetry::CoverageMode, telemetry::EventListener,
};
use std::{
    fs,
    path::{Path, PathBuf},
};

struct Silent;

impl EventListener for Silent {}

fn scratch_dir(label: &str) -> PathBuf {
    let dir = std::env::temp_dir().join(format!(
        "baseline_c09c_{}_{}",
        std::process::id(),
        label,
    ));
    let _ = fs::remove_dir_all(&dir);
    fs::create_dir_all(&dir).unwrap();
    dir
}

fn write(root: &Path, relative: &str, content: &str) {
    let path = root.join(relative);
    fs::create_dir_all(path.parent().unwrap()).unwrap();
    fs::write(path, content).unwrap();
}

const AIKEN_TOML: &str = "name = \"demo/c09c\"\nversion = \"0.0.0\"\nplutusVersion = \"v3\"\n";

fn find_validator(project: &Project<Silent>, module_name: &str) -> TypedValidator {
    project
        .modules()
        .into_iter()
        .find(|m| m.name == module_name)
        .and_then(|m| {
            m.ast.definitions().find_map(|def| match def {
                Definition::Validator(v) => Some(v.clone()),
                _ => None,
            })
        })
        .unwrap_or_else(|| panic!("no validator in module {module_name}"))
}

#[test]
fn reused_generator_gives_the_same_program_as_a_fresh_one() {
    let root = scratch_dir("history");

    write(&root, "aiken.toml", AIKEN_TOML);

    write(
        &root,
        "lib/util.ak",
        r#"pub fn is_even(n: Int) -> Bool {
  if n == 0 {
    True
  } else {
    is_odd(n - 1)
  }
}

pub fn is_odd(n: Int) -> Bool {
  if n == 0 {
    False
  } else {
    is_even(n - 1)
  }
}

pub const k: Bool = is_even(10)
"#,
    );

    write(
        &root,
        "validators/a.ak",
        r#"use util.{k}

validator first {
  mint(_redeemer: Int, _policy_id: ByteArray, _self: Data) {
    k
  }

  else(_) {
    fail
  }
}
"#,
    );

    write(
        &root,
        "validators/b.ak",
        r#"use util.{is_odd, k}

validator second {
  mint(redeemer: Int, _policy_id: ByteArray, _self: Data) {
    is_odd(redeemer) && k
  }

  else(_) {
    fail
  }
}
"#,
    );

    let mut project = Project::new(root.clone(), Silent).unwrap();

    // Type-check only.
    project
        .check(
            true,
            None,
            false,
            false,
            0,
            10,
            CoverageMode::default(),
            Tracing::silent(),
            false,
            None,
        )
        .map_err(|errs| {
            errs.iter()
                .map(|e| format!("{e}"))
                .collect::<Vec<_>>()
                .join(" | ")
        })
        .unwrap();

    let first = find_validator(&project, "a");
    let second = find_validator(&project, "b");

    let hex = |program: uplc::ast::Program<uplc::ast::Name>| {
        program.to_debruijn().unwrap().to_hex().unwrap()
    };

    // `second` compiled by a fresh generator.
    let fresh = {
        let mut generator = project.new_generator(Tracing::silent());
        hex(generator.generate(&second, "b"))
    };

    // `second` compiled by a generator that compiled `first` before.
    let reused = {
        let mut generator = project.new_generator(Tracing::silent());
        let _ = generator.generate(&first, "a");
        hex(generator.generate(&second, "b"))
    };

    let _ = fs::remove_dir_all(&root);

    assert_eq!(
        fresh, reused,
        "validator `b.second` compiles to different programs in a fresh and in a re-used generator"
    );
}

#[test]
fn blueprint_with_all_types_is_the_same_for_every_build() {
    let mut blueprints: Vec<String> = vec![];

    // Every `Project` (and every HashMap in it) gets fresh random hash seeds.
    for _ in 0..40 {
        let root = scratch_dir("alltypes");

        write(&root, "aiken.toml", AIKEN_TOML);

        write(
            &root,
            "lib/types.ak",
            r#"pub type Bad {
  p: G1Element,
}

pub type A {
  x: Int,
  bad: Bad,
}
"#,
        );

        write(
            &root,
            "validators/v.ak",
            r#"validator v {
  mint(_redeemer: Data, _policy_id: ByteArray, _self: Data) {
    True
  }

  else(_) {
    fail
  }
}
"#,
        );

        let blueprint_path = root.join("plutus.json");

        let mut project = Project::new(root.clone(), Silent).unwrap();

        project
            .build(
                false,
                Tracing::silent(),
                blueprint_path.clone(),
                BlueprintExport::AllTypes,
                None,
            )
            .map_err(|errs| {
                errs.iter()
                    .map(|e| format!("{e}"))
                    .collect::<Vec<_>>()
                    .join(" | ")
            })
            .unwrap();

        let blueprint = fs::read_to_string(&blueprint_path).unwrap();

        let _ = fs::remove_dir_all(&root);

        if !blueprints.contains(&blueprint) {
            blueprints.push(blueprint);
        }
    }

    assert!(
        blueprints.len() == 1,
        "the same project built 40 times gave {} different blueprints, e.g.\n{}\n--- vs ---\n{}",
        blueprints.len(),
        blueprints[0],
        blueprints[1],
    );
}
