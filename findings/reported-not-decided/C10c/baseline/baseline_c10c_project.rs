//! C10 on the CLEAN tree: compiling any module the type checker accepts produces a
//! program or a diagnostic; it never panics.
//!
//! Module constants are evaluated by the code generator (CodeGenerator::gen_uplc,
//! ValueConstructorVariant::ModuleConstant) and the result is unwrapped with
//! `panic!("Failed to evaluate constant: ...")`. Any well-typed constant whose
//! evaluation fails therefore crashes `aiken check` / `aiken build` as soon as the
//! constant is referenced.
//!
//! Install as crates/aiken-project/tests/baseline_c10c_project.rs and run
//!   cargo test -p aiken-project --offline --test baseline_c10c_project
use aiken_lang::ast::Tracing;
use aiken_project::{
    Project,
    telemetry::{CoverageMode, EventListener},
};
use std::{
    fs,
    panic::{AssertUnwindSafe, catch_unwind},
    path::PathBuf,
};

struct Silent;

impl EventListener for Silent {}

fn scratch_project(name: &str, module: &str) -> PathBuf {
    let root =
        std::env::temp_dir().join(format!("baseline_c10c_{}_{name}", std::process::id()));

    let _ = fs::remove_dir_all(&root);

    fs::create_dir_all(root.join("lib")).unwrap();

    fs::write(
        root.join("aiken.toml"),
        "name = \"demo/c10c_baseline\"\nversion = \"0.0.0\"\nplutus = \"v3\"\ndescription = \"\"\n",
    )
    .unwrap();

    fs::write(root.join("lib").join("demo.ak"), module).unwrap();

    root
}

/// Ok(true) all tests pass / Ok(false) diagnostics reported / Err(msg) compiler panicked
fn check(name: &str, module: &str) -> Result<bool, String> {
    let root = scratch_project(name, module);

    let outcome = catch_unwind(AssertUnwindSafe(|| {
        let mut project = Project::new(root.clone(), Silent).expect("valid project");

        project
            .check(
                false,
                None,
                false,
                false,
                42,
                10,
                CoverageMode::default(),
                Tracing::silent(),
                false,
                None,
            )
            .is_ok()
    }))
    .map_err(|payload| {
        payload
            .downcast_ref::<String>()
            .cloned()
            .or_else(|| payload.downcast_ref::<&str>().map(|s| s.to_string()))
            .unwrap_or_else(|| "<non-string panic>".to_string())
    });

    let _ = fs::remove_dir_all(&root);

    outcome
}

#[test]
fn constant_dividing_by_zero_is_a_diagnostic_or_a_failing_test() {
    let module = r#"
const zero: Int = 0

const ratio: Int = 1 / zero

test uses_ratio() fail {
  ratio == 1
}
"#;

    let outcome = check("div_by_zero", module);

    assert!(
        outcome.is_ok(),
        "the compiler panicked on a well-typed module: {}",
        outcome.unwrap_err()
    );
}

#[test]
fn constant_taking_the_head_of_an_empty_list_is_a_diagnostic_or_a_failing_test() {
    let module = r#"
use aiken/builtin

const first: Data = builtin.head_list([])

test uses_first() fail {
  first == first
}
"#;

    let outcome = check("head_of_empty", module);

    assert!(
        outcome.is_ok(),
        "the compiler panicked on a well-typed module: {}",
        outcome.unwrap_err()
    );
}
