//! C10 on the CLEAN tree: evaluation (and reporting its outcome) never panics or
//! overflows machine arithmetic.
//!
//! Install as crates/uplc/tests/baseline_c10c_uplc.rs and run
//!   cargo test -p uplc --offline --test baseline_c10c_uplc
use std::panic::{AssertUnwindSafe, catch_unwind};
use uplc::{
    ast::{NamedDeBruijn, Program},
    machine::cost_model::ExBudget,
    parser,
};

fn program(src: &str) -> Program<NamedDeBruijn> {
    parser::program(src).unwrap().try_into().unwrap()
}

fn panic_message<T>(f: impl FnOnce() -> T) -> Result<T, String> {
    catch_unwind(AssertUnwindSafe(f)).map_err(|payload| {
        payload
            .downcast_ref::<String>()
            .cloned()
            .or_else(|| payload.downcast_ref::<&str>().map(|s| s.to_string()))
            .unwrap_or_else(|| "<non-string panic>".to_string())
    })
}

/// `indexByteString #"" 0` correctly evaluates to an error, but *rendering* that
/// error (what `aiken uplc eval`, `aiken check` and `aiken tx simulate` all do)
/// computes `bytes.len() - 1` for the "Allowed" range and underflows.
#[test]
fn out_of_bounds_error_on_empty_bytestring_can_be_displayed() {
    let result = program("(program 1.1.0 [(builtin indexByteString) (con bytestring #) (con integer 0)])")
        .eval(ExBudget::default())
        .result();

    let error = result.expect_err("indexing an empty bytestring is an error");

    let rendered = panic_message(|| format!("{error}"));

    assert!(
        rendered.is_ok(),
        "displaying the evaluation error panicked: {}",
        rendered.unwrap_err()
    );
}

/// `ExBudget` "can be negative" (see its doc comment); Machine::spend_budget subtracts
/// before comparing, so a budget at the bottom of the range overflows on the very
/// first (start-up) charge instead of reporting OutOfExError.
#[test]
fn most_negative_budget_is_out_of_budget_not_a_crash() {
    let outcome = panic_message(|| {
        program("(program 1.1.0 (con unit ()))")
            .eval(ExBudget {
                mem: i64::MIN,
                cpu: i64::MIN,
            })
            .result()
            .is_ok()
    });

    assert_eq!(outcome, Ok(false));
}

/// With the largest budget, a builtin whose (saturated) cost is i64::MAX leaves a
/// slightly negative remaining budget; EvalResult::cost() = initial - remaining then
/// overflows. `aiken uplc eval` calls cost() unconditionally.
#[test]
fn cost_of_a_run_that_exhausts_the_largest_budget_can_be_computed() {
    let result = program(
        "(program 1.1.0 [(force (builtin dropList)) (con integer 340282366920938463463374607431768211456) (con (list integer) [1])])",
    )
    .eval(ExBudget {
        mem: i64::MAX,
        cpu: i64::MAX,
    });

    assert!(result.result().is_err(), "expected to run out of budget");

    let cost = panic_message(|| result.cost());

    assert!(
        cost.is_ok(),
        "computing the cost panicked: {}",
        cost.unwrap_err()
    );
}
