//! C10 on the CLEAN tree: evaluating any term terminates with a value or an error.
//!
//! `(case (constr 0 f1 .. fN) branch)` is a *flat* term (depth 2), so it parses,
//! decodes and clones without deep recursion. But Machine::return_compute moves the N
//! fields onto the continuation with the recursive `transfer_arg_stack` (depth N), and
//! the resulting chain of N nested `Box<Context>` frames is later dropped recursively
//! as well. With N in the hundreds of thousands (a script of a few hundred kB, far
//! below what `aiken uplc eval` or an embedder would refuse to load) the evaluator
//! overflows the native stack and the whole process is aborted (SIGSEGV / SIGABRT):
//! not a value, not an error, and not even a catchable panic.
//!
//! Install as crates/uplc/tests/baseline_c10c_wide_constr.rs and run
//!   cargo test -p uplc --offline --test baseline_c10c_wide_constr
//! On the clean tree the test binary dies with "has overflowed its stack".
use uplc::{
    ast::{DeBruijn, NamedDeBruijn, Program, Term},
    machine::cost_model::ExBudget,
};

fn wide_case(n: usize) -> Program<NamedDeBruijn> {
    let term: Term<DeBruijn> = Term::Case {
        constr: Term::Constr {
            tag: 0,
            fields: vec![Term::unit(); n],
        }
        .into(),
        // The branch ignores its first argument and returns a constant; applying
        // that constant to the second field is a (clean) evaluation error.
        branches: vec![Term::Lambda {
            parameter_name: DeBruijn::new(0).into(),
            body: Term::unit().into(),
        }],
    };

    // Round-trip through the on-chain encoding: this is an ordinary, decodable script.
    let bytes = Program {
        version: (1, 1, 0),
        term,
    }
    .to_flat()
    .unwrap();

    let program: Program<DeBruijn> = Program::from_flat(&bytes).unwrap();

    program.into()
}

#[test]
fn casing_on_a_constr_with_a_thousand_fields_is_a_plain_evaluation_error() {
    assert!(wide_case(1_000).eval(ExBudget::max()).result().is_err());
}

#[test]
fn casing_on_a_constr_with_many_fields_does_not_overflow_the_stack() {
    // Same stack size as the main thread of the `aiken` binary on Linux.
    let handle = std::thread::Builder::new()
        .stack_size(8 * 1024 * 1024)
        .spawn(|| {
            let program = wide_case(200_000);

            program.eval(ExBudget::max()).result().is_ok()
        })
        .unwrap();

    // Two fields would already be one too many for the branch: an error is expected.
    assert_eq!(handle.join().ok(), Some(false));
}
