//! C04 baseline findings: these tests FAIL on the clean tree (HEAD 974df21).
//!
//! Install: copy to crates/uplc/tests/baseline_c04c.rs
//! Run:     cargo test -p uplc --offline --test baseline_c04c
//!
//! All of them feed the builtins a `Data` value obtained with the public CBOR decoder
//! `uplc::plutus_data` -- the same decoder used for datums / redeemers / script-context
//! pieces in `tx::eval` and for `data` constants in flat-encoded scripts. In Plutus,
//! `Data` is a plain algebraic value (`I Integer | B ByteString | List | Map | Constr`):
//! how it was spelled in CBOR must not be observable through any builtin.
use pallas_primitives::conway::Language;
use uplc::{
    ast::{Constant, NamedDeBruijn, Program, Term},
    builtins::DefaultFunction,
    machine::cost_model::ExBudget,
};

fn data(cbor_hex: &str) -> Term<NamedDeBruijn> {
    let d = uplc::plutus_data(&hex::decode(cbor_hex).unwrap()).expect("valid Plutus Data CBOR");

    Term::Constant(Constant::Data(d).into())
}

fn run(term: Term<NamedDeBruijn>) -> String {
    let program = Program {
        version: (1, 0, 0),
        term,
    };

    match program
        .eval_version_with_protocol(ExBudget::max(), &Language::PlutusV3, 11)
        .result()
    {
        Ok(t) => t.to_pretty(),
        Err(e) => format!("evaluation failure: {e:?}"),
    }
}

fn app1(f: DefaultFunction, a: Term<NamedDeBruijn>) -> Term<NamedDeBruijn> {
    Term::Builtin(f).apply(a)
}

fn app2(
    f: DefaultFunction,
    a: Term<NamedDeBruijn>,
    b: Term<NamedDeBruijn>,
) -> Term<NamedDeBruijn> {
    Term::Builtin(f).apply(a).apply(b)
}

// CBOR spellings used below
//   24        = -5 (plain negative int)
//   c3 41 04  = tag 3 (negative bignum), bytes [04]  = -1 - 4 = -5
//   c3 41 05  = tag 3 (negative bignum), bytes [05]  = -1 - 5 = -6
//   c3 41 00  = tag 3 (negative bignum), bytes [00]  = -1
//   00        = 0
// Plutus' decoder (`decodeBoundedBigInteger`) accepts bignum tags for any magnitude.

/// B1. equalsData disagrees with unIData on negative integers spelled as bignums.
/// (pallas-primitives 0.35 `impl Ord for BigInt` compares BigNInt payload `n` -- which means
/// -1 - n -- as if it were the magnitude.)
#[test]
fn b1_equals_data_on_negative_bignum_spelling() {
    // sanity: both spellings are the integer -5, and c34105 is -6
    assert_eq!(
        run(app1(DefaultFunction::UnIData, data("c34104"))),
        "(con integer -5)"
    );
    assert_eq!(
        run(app1(DefaultFunction::UnIData, data("c34105"))),
        "(con integer -6)"
    );

    // I (-5) == I (-5)
    assert_eq!(
        run(app2(DefaultFunction::EqualsData, data("24"), data("c34104"))),
        "(con bool True)",
        "equalsData (I -5) (I -5) must be True"
    );

    // I (-5) /= I (-6)
    assert_eq!(
        run(app2(DefaultFunction::EqualsData, data("24"), data("c34105"))),
        "(con bool False)",
        "equalsData (I -5) (I -6) must be False"
    );

    // I 0 /= I (-1)
    assert_eq!(
        run(app2(DefaultFunction::EqualsData, data("00"), data("c34100"))),
        "(con bool False)",
        "equalsData (I 0) (I -1) must be False"
    );
}

/// B2. serialiseData is not canonical: it echoes the original spelling of integers and
/// constructor tags instead of encoding the Data *value* (Plutus `encodeData`).
#[test]
fn b2_serialise_data_is_canonical() {
    // I 5 spelled as a positive bignum (c2 41 05) must serialise as 05
    assert_eq!(
        run(app1(DefaultFunction::SerialiseData, data("c24105"))),
        "(con bytestring #05)"
    );

    // Constr 3 [] spelled in the general form 102 [3, []] must serialise with compact tag 124
    assert_eq!(
        run(app1(DefaultFunction::SerialiseData, data("d866820380"))),
        "(con bytestring #d87c80)"
    );

    // and therefore two equal Data values must have equal serialisations
    assert_eq!(
        run(app2(DefaultFunction::EqualsData, data("d87c80"), data("d866820380"))),
        "(con bool True)"
    );
    assert_eq!(
        run(app1(DefaultFunction::SerialiseData, data("d87c80"))),
        run(app1(DefaultFunction::SerialiseData, data("d866820380"))),
        "equal Data values must serialise identically"
    );
}

/// B3 (lower confidence, needs the Haskell implementation to confirm): Plutus'
/// `constrData :: Integer -> [Data] -> Data` is total; the index is an unbounded Integer.
/// aiken fails for negative indices and for indices >= 2^64.
#[test]
fn b3_constr_data_is_total_in_its_index() {
    use num_bigint::BigInt;

    for index in [BigInt::from(-1), BigInt::from(1u128 << 64)] {
        let term = Term::Builtin(DefaultFunction::FstPair)
            .force()
            .force()
            .apply(app1(
                DefaultFunction::UnConstrData,
                app2(
                    DefaultFunction::ConstrData,
                    Term::Constant(Constant::Integer(index.clone()).into()),
                    Term::Constant(Constant::ProtoList(uplc::ast::Type::Data, vec![]).into()),
                ),
            ));

        assert_eq!(run(term), format!("(con integer {index})"));
    }
}

/// B4 (lower confidence, needs the Haskell implementation to confirm): Plutus verifies
/// Ed25519 with libsodium's `crypto_sign_ed25519_verify_detached`, which rejects small-order
/// public keys and small-order R. aiken (cryptoxide) accepts the all-identity forgery
/// pk = R = (0, 1), S = 0 for EVERY message.
#[test]
fn b4_ed25519_rejects_small_order_key() {
    let mut pk = vec![0u8; 32];
    pk[0] = 1;

    let mut sig = vec![0u8; 64];
    sig[0] = 1;

    let term = Term::Builtin(DefaultFunction::VerifyEd25519Signature)
        .apply(Term::Constant(Constant::ByteString(pk).into()))
        .apply(Term::Constant(
            Constant::ByteString(b"any message at all".to_vec()).into(),
        ))
        .apply(Term::Constant(Constant::ByteString(sig).into()));

    assert_eq!(run(term), "(con bool False)");
}
