//! C16 / baseline (clean tree) — `Prng::choices()` is not the inverse of
//! `Prng::from_choices()` once the PRNG went through a fuzzer: a `Replayed` PRNG
//! handed back by `Prng::sample` reports its choices in the on-chain (reversed)
//! byte order. `PropertyTest::run_once` records `next_prng.choices()` as the
//! counterexample's choice sequence, so a run that starts from a replayed PRNG
//! (`run_n_times` is public and takes any `Prng`; this is how one re-runs a
//! recorded counterexample) yields a counterexample whose recorded choices do NOT
//! regenerate its value.

use aiken_lang::{
    ast::{TraceLevel, Tracing},
    expr::UntypedExpr,
    plutus_version::PlutusVersion,
    test_framework::{PropertyTest, PropertyTestResult, Prng, TestResult},
};
use aiken_project::{
    Project,
    telemetry::{CoverageMode, Event, EventListener},
};
use std::{cell::RefCell, collections::BTreeMap, fs, path::PathBuf, rc::Rc};

#[derive(Clone, Default)]
struct Capture(Rc<RefCell<Vec<TestResult<UntypedExpr, UntypedExpr>>>>);

impl EventListener for Capture {
    fn handle_event(&self, event: Event) {
        if let Event::FinishedTests { tests, .. } = event {
            self.0.borrow_mut().extend(tests);
        }
    }
}

const SOURCE: &str = r#"
use aiken/builtin

fn int() -> Fuzzer<Int> {
  fn(prng: PRNG) -> Option<(PRNG, Int)> {
    when prng is {
      Seeded { seed, choices } -> {
        let choice = builtin.index_bytearray(seed, 0)
        Some(
          (
            Seeded {
              seed: builtin.blake2b_256(seed),
              choices: builtin.cons_bytearray(choice, choices),
            },
            choice,
          ),
        )
      }
      Replayed { cursor, choices } ->
        if cursor >= 1 {
          let cursor = cursor - 1
          Some(
            (Replayed { choices, cursor }, builtin.index_bytearray(choices, cursor)),
          )
        } else {
          None
        }
    }
  }
}

fn two_ints() -> Fuzzer<(Int, Int)> {
  fn(s0) {
    when int()(s0) is {
      Some((s1, a)) ->
        when int()(s1) is {
          Some((s2, b)) -> Some((s2, (a, b)))
          None -> None
        }
      None -> None
    }
  }
}

test ordered(t via two_ints()) {
  t.1st <= t.2nd
}
"#;

fn property() -> PropertyTest {
    let root: PathBuf =
        std::env::temp_dir().join(format!("baseline_c16c_{}", std::process::id()));
    let _ = fs::remove_dir_all(&root);
    fs::create_dir_all(root.join("lib")).unwrap();
    fs::write(
        root.join("aiken.toml"),
        "name = \"demo/c16c_baseline\"\nversion = \"0.0.0\"\nplutus = \"v3\"\n",
    )
    .unwrap();
    fs::write(root.join("lib").join("props.ak"), SOURCE).unwrap();

    let capture = Capture::default();
    let mut project = Project::new(root.clone(), capture.clone()).expect("project loads");
    let _ = project.check(
        false,
        None,
        false,
        false,
        42,
        100,
        CoverageMode::default(),
        Tracing::All(TraceLevel::Verbose),
        true,
        None,
    );
    let _ = fs::remove_dir_all(&root);

    let results = capture.0.borrow().clone();
    match results.into_iter().next() {
        Some(TestResult::PropertyTestResult(PropertyTestResult { test, .. })) => test,
        _ => panic!("expected one property test"),
    }
}

#[test]
fn choices_of_a_replayed_prng_are_in_replay_order() {
    let prop = property();

    let (next, _value) = Prng::from_choices(&[1, 2])
        .sample(&prop.fuzzer.program)
        .expect("fuzzer doesn't crash")
        .expect("two choices are enough");

    assert_eq!(
        next.choices(),
        vec![1, 2],
        "Prng::from_choices(c).sample(f) hands back a PRNG whose choices() is not c"
    );
}

#[test]
fn rerunning_a_recorded_counterexample_records_choices_that_regenerate_it() {
    let prop = property();
    let version = PlutusVersion::V3;

    // (1, 0) falsifies `t.1st <= t.2nd`; [1, 0] is the choice sequence a seeded
    // run records for it (and what the shrinker ends up with).
    let recorded: Vec<u8> = vec![1, 0];

    let mut remaining = 1;
    let mut labels = BTreeMap::new();
    let counterexample = prop
        .run_n_times(
            &mut remaining,
            Prng::from_choices(&recorded),
            &mut labels,
            &version,
        )
        .expect("fuzzer doesn't crash")
        .expect("the recorded counterexample still falsifies the property");

    let (_, regenerated) = Prng::from_choices(&counterexample.choices)
        .sample(&prop.fuzzer.program)
        .expect("fuzzer doesn't crash")
        .expect("recorded choices are a valid replay");

    assert_eq!(
        regenerated, counterexample.value,
        "replaying the recorded choices {:?} does not regenerate the counterexample",
        counterexample.choices
    );
}
