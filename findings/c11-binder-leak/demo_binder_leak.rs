//! C11 baseline findings: both tests FAIL on the clean tree.
//!
//! install: copy /tmp/wt/C11c-out/baseline_c11c.rs to crates/uplc/tests/baseline_c11c.rs
//! run:     cd /tmp/wt/C11c && cargo test -p uplc --offline --test baseline_c11c
use std::rc::Rc;
use uplc::{
    ast::{DeBruijn, Name, NamedDeBruijn, Program, Term},
    parser,
};

fn var(i: usize) -> Term<DeBruijn> {
    Term::Var(Rc::new(DeBruijn::new(i)))
}

fn lam(body: Term<DeBruijn>) -> Term<DeBruijn> {
    Term::Lambda {
        parameter_name: Rc::new(DeBruijn::new(0)),
        body: Rc::new(body),
    }
}

fn app(f: Term<DeBruijn>, a: Term<DeBruijn>) -> Term<DeBruijn> {
    Term::Apply {
        function: Rc::new(f),
        argument: Rc::new(a),
    }
}

/// B1. A variable with de Bruijn index 0 is never in scope (the innermost enclosing lambda is
/// index 1; on its own, `(lam 0)` is correctly rejected with FreeIndex). But when a *sibling*
/// lambda was converted earlier in the same scope, `Converter::declare_binder` has left that
/// lambda's (unique, level) entry behind in `levels[current_level]` (the de-Bruijn -> name
/// direction never removes a binder when its scope ends), and `get_unique` resolves index 0 to
/// `current_level - 0`, i.e. to the stale entry: the free variable is silently bound to the
/// sibling lambda's binder.
#[test]
fn b1_index_zero_is_silently_bound_to_a_sibling_lambda() {
    let open_terms = vec![
        ("[(lam 1) 0]", app(lam(var(1)), var(0))),
        ("(lam [(lam 1) 0])", lam(app(lam(var(1)), var(0)))),
        (
            "(constr 0 (lam 1) 0)",
            Term::Constr {
                tag: 0,
                fields: vec![lam(var(1)), var(0)],
            },
        ),
        (
            "(case (lam 1) (delay 0))",
            Term::Case {
                constr: Rc::new(lam(var(1))),
                branches: vec![Term::Delay(Rc::new(var(0)))],
            },
        ),
    ];

    // control: index 0 alone is rejected
    assert!(Term::<Name>::try_from(&lam(var(0))).is_err());

    let mut accepted = vec![];

    for (label, term) in open_terms {
        if let Ok(named) = Term::<Name>::try_from(&term) {
            accepted.push(format!("{label} => {}", named.to_pretty()));
        }

        let named_debruijn: Term<NamedDeBruijn> = term.into();

        if let Ok(named) = Term::<Name>::try_from(named_debruijn) {
            accepted.push(format!("{label} (named de Bruijn) => {}", named.to_pretty()));
        }
    }

    assert!(
        accepted.is_empty(),
        "open de Bruijn terms were accepted, free variable bound to a sibling's binder:\n{}",
        accepted.join("\n")
    );
}

/// B2. named-de-Bruijn -> name keeps every variable's *text* and distinguishes binders only by
/// their fresh `unique`; the pretty-printer of `Name` programs prints the text alone. A program
/// in which a variable refers to an outer binder across an inner binder with the same text
/// (perfectly legal in (named) de Bruijn form, and what evaluation results / optimised programs
/// can look like) therefore prints as a program where that variable is captured by the inner
/// binder: named-de-Bruijn -> name -> text -> name -> named-de-Bruijn is not the identity.
/// (`aiken uplc eval` prints its result term, and `aiken uplc decode --from named-debruijn`
/// prints programs, exactly through this path.)
#[test]
fn b2_named_debruijn_to_name_to_text_rebinds_shadowed_variables() {
    let nd = |text: &str, index: usize| {
        Rc::new(NamedDeBruijn {
            text: text.to_string(),
            index: DeBruijn::new(index),
        })
    };

    // (lam x (lam x x@2)) : the variable is the OUTER x
    let program = Program::<NamedDeBruijn> {
        version: (1, 1, 0),
        term: Term::Lambda {
            parameter_name: nd("x", 0),
            body: Rc::new(Term::Lambda {
                parameter_name: nd("x", 0),
                body: Rc::new(Term::Var(nd("x", 2))),
            }),
        },
    };

    let named: Program<Name> = program.clone().try_into().unwrap();

    // the in-memory named program is fine: converting straight back is the identity
    let back: Program<NamedDeBruijn> = named.clone().try_into().unwrap();
    assert_eq!(back, program);

    // ... but its textual form is not
    let text = named.to_pretty();

    let reparsed: Program<NamedDeBruijn> = parser::program(&text).unwrap().try_into().unwrap();

    assert_eq!(
        reparsed, program,
        "printed as:\n{text}\nwhich re-parses with the variable bound to the inner binder"
    );
}
