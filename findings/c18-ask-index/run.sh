#!/bin/sh
# C18 baseline checks -- run against the CLEAN tree.
#
#   cd /tmp/wt/C18c && cargo build --offline -p aiken && sh /tmp/wt/C18c-out/baseline/run.sh
#
# Exit code 0 iff every check holds. On the pinned tree checks 1, 2, 3 and 4 all FAIL.
AIKEN=${AIKEN:-/tmp/wt/C18c/target/debug/aiken}
HERE=$(cd "$(dirname "$0")" && pwd)
WORK=$(mktemp -d)
FAILED=0

field() { # field <file> <python expression over v = first validator>
  python3 -c "import json,sys; v=json.load(open(sys.argv[1]))['validators'][0]; print($2)" "$1"
}

# ---------------------------------------------------------------------------------------------
# 1. Interactive construction of a parameter ignores the constructor's declared index.
#    `Settings` has a single nullary constructor tagged 3, so nothing is prompted (no TTY needed).
#    Building the parameter interactively must give the same blueprint as passing `d87c80`
#    (Constr 3 []) explicitly.
cp -r "$HERE/tagged" "$WORK/tagged" && cd "$WORK/tagged" || exit 2
"$AIKEN" build >/dev/null 2>&1 || { echo "cannot build fixture"; exit 2; }
"$AIKEN" blueprint apply d87c80 --out explicit.json >/dev/null 2>&1 || { echo "explicit apply failed"; exit 2; }
"$AIKEN" blueprint apply --out interactive.json </dev/null >/dev/null 2>interactive.log
if [ -f interactive.json ] && cmp -s explicit.json interactive.json; then
  echo "PASS 1: interactive construction honours the constructor index"
else
  echo "FAIL 1: interactive construction built '$(grep -o 'd8[0-9a-f]*' interactive.log | head -1)' for a constructor of index 3 (expected d87c80); the conforming parameter cannot be built"
  FAILED=1
fi

# ---------------------------------------------------------------------------------------------
# 2. Same defect, silent variant (needs a pseudo-terminal: util-linux `script`).
#    Mode { @tag(1) Strict, @tag(0) Lenient }: the user picks the first entry, "Strict" (index 1).
#    The applied constant must be Constr 1 [] = d87a80.
if command -v script >/dev/null 2>&1; then
  cp -r "$HERE/permuted" "$WORK/permuted" && cd "$WORK/permuted" || exit 2
  "$AIKEN" build >/dev/null 2>&1 || { echo "cannot build fixture"; exit 2; }
  "$AIKEN" blueprint apply d87a80 --out explicit.json >/dev/null 2>&1 || { echo "explicit apply failed"; exit 2; }
  (sleep 2; printf '\r'; sleep 2) | script -qec "$AIKEN blueprint apply --out interactive.json" /dev/null >interactive.log 2>&1
  if [ -f interactive.json ] && cmp -s explicit.json interactive.json; then
    echo "PASS 2: selecting 'Strict' applies Constr 1 []"
  else
    echo "FAIL 2: selected 'Strict' (index 1) but the tool applied $(field interactive.json "v['compiledCode'][-10:-4]") (Constr 0 [] = Lenient), said 'Done', and published hash $(field interactive.json "v['hash']") instead of $(field explicit.json "v['hash']")"
    FAILED=1
  fi
else
  echo "SKIP 2: no 'script' utility"
fi

# ---------------------------------------------------------------------------------------------
# 3. A parameter followed by trailing garbage is not a Plutus Data; it must be refused.
cd "$WORK/tagged" || exit 2
if "$AIKEN" blueprint apply d87c80deadbeef --out trailing.json >/dev/null 2>&1; then
  echo "FAIL 3: 'd87c80deadbeef' was accepted (as d87c80); trailing bytes are silently dropped"
  FAILED=1
else
  echo "PASS 3: malformed CBOR parameter refused"
fi

# ---------------------------------------------------------------------------------------------
# 4. `blueprint hash` / `blueprint address` must agree with the hash published in the blueprint.
#    Take the applied blueprint, relabel it as the Plutus V2 blueprint of the same code (hash =
#    blake2b-224(0x02 ++ code)); `blueprint apply` itself preserves such blueprints faithfully.
python3 - <<'EOF'
import json, hashlib
b = json.load(open('explicit.json'))
b['preamble']['plutusVersion'] = 'v2'
for v in b['validators']:
    v['hash'] = hashlib.blake2b(b'\x02' + bytes.fromhex(v['compiledCode']), digest_size=28).hexdigest()
json.dump(b, open('v2.json', 'w'), indent=2)
EOF
PUBLISHED=$(field v2.json "v['hash']")
POLICY=$("$AIKEN" blueprint policy --in v2.json 2>/dev/null | tail -1)
HASH=$("$AIKEN" blueprint hash --in v2.json 2>/dev/null | tail -1)
if [ "$PUBLISHED" = "$POLICY" ] && [ "$PUBLISHED" = "$HASH" ]; then
  echo "PASS 4: hash/address commands agree with the published hash"
else
  echo "FAIL 4: published hash $PUBLISHED (policy: $POLICY) but 'blueprint hash' (and the payment part of 'blueprint address') says $HASH -- computed with the project's Plutus version, not the blueprint's"
  FAILED=1
fi

rm -rf "$WORK"
exit $FAILED
