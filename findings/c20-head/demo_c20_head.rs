//! Demonstrations of input-driven panics on the pinned tree (C20 / C12 / C18 findings).
use aiken_project::blueprint::{
    definitions::{Definitions, Reference},
    parameter::Parameter,
    schema::{Annotated, Constructor, Data, Declaration, Schema},
    validator::Validator,
};
use std::panic::{AssertUnwindSafe, catch_unwind};
use uplc::ast::{Constant, Data as UplcData};

fn panics<F: FnOnce() -> R, R>(f: F) -> Option<String> {
    match catch_unwind(AssertUnwindSafe(f)) {
        Ok(_) => None,
        Err(e) => Some(
            e.downcast_ref::<String>()
                .cloned()
                .or_else(|| e.downcast_ref::<&str>().map(|s| s.to_string()))
                .unwrap_or_default(),
        ),
    }
}

#[test]
fn constructor_with_wrong_number_of_fields_is_an_error_not_a_panic() {
    let schema = Schema::Data(Data::AnyOf(vec![
        Constructor {
            index: 0,
            fields: vec![Declaration::Inline(Box::new(Data::Integer)).into()],
        }
        .into(),
    ]));
    let param = Parameter {
        title: None,
        schema: Declaration::Inline(Box::new(schema)),
    };
    let defs = Definitions::new();
    // Constr 0 [] : right index, one field missing
    let arg = Constant::Data(UplcData::constr(0, vec![]));
    let p = panics(|| param.validate(&defs, &arg).is_err());
    assert_eq!(p, None, "Parameter::validate panicked: {p:?}");
}

#[test]
fn null_definition_is_an_error_not_a_panic() {
    let defs: Definitions<Annotated<Schema>> = serde_json::from_str(r#"{ "Foo": null }"#).unwrap();
    let param = Parameter {
        title: None,
        schema: Declaration::Referenced(Reference::new("Foo")),
    };
    let arg = Constant::Data(UplcData::integer(1.into()));
    let p = panics(|| param.validate(&defs, &arg).is_err());
    assert_eq!(p, None, "Parameter::validate panicked: {p:?}");
}

#[test]
fn validator_title_without_a_dot_is_not_a_panic() {
    let v: Validator<()> = Validator {
        title: "nodot".to_string(),
        description: None,
        datum: None,
        redeemer: None,
        parameters: vec![],
        program: (),
        definitions: Definitions::new(),
    };
    let p = panics(|| {
        let _ = v.get_module_and_name();
    });
    assert_eq!(p, None, "get_module_and_name panicked: {p:?}");
}
