// copy to crates/uplc/tests/demo_msm_elemtype.rs ; cargo test -p uplc --offline --test demo_msm_elemtype
//
// A builtin argument of the wrong type makes the application fail: the specification's machine compares the constant's
// type tag with the builtin's signature before looking at the value, so an *empty* list of the wrong element type is a
// type error as well (`writeBits` and `listData` already behave so).
use uplc::{
    ast::{DeBruijn, Program},
    machine::cost_model::ExBudget,
    parser,
};

fn fails(src: &str) -> bool {
    let program = parser::program(src).unwrap();
    let program: Program<DeBruijn> = program.try_into().unwrap();
    let mut r = program.eval(ExBudget::max());
    r.result().is_err()
}

#[test]
fn control_well_typed_empty_lists_give_the_zero_point() {
    assert!(!fails("(program 1.1.0 [(builtin bls12_381_G1_multiScalarMul) (con (list integer) []) (con (list bls12_381_G1_element) [])])"));
}

#[test]
fn g1_scalars_of_the_wrong_element_type() {
    assert!(fails("(program 1.1.0 [(builtin bls12_381_G1_multiScalarMul) (con (list bytestring) []) (con (list bls12_381_G1_element) [])])"));
}

#[test]
fn g1_points_of_the_wrong_element_type() {
    assert!(fails("(program 1.1.0 [(builtin bls12_381_G1_multiScalarMul) (con (list integer) []) (con (list integer) [])])"));
    // a longer point list of the wrong type is cut by the zip and never looked at
    assert!(fails("(program 1.1.0 [(builtin bls12_381_G1_multiScalarMul) (con (list integer) []) (con (list integer) [1, 2])])"));
}

#[test]
fn g2_lists_of_the_wrong_element_type() {
    assert!(fails("(program 1.1.0 [(builtin bls12_381_G2_multiScalarMul) (con (list data) []) (con (list bls12_381_G2_element) [])])"));
    assert!(fails("(program 1.1.0 [(builtin bls12_381_G2_multiScalarMul) (con (list integer) []) (con (list bls12_381_G1_element) [])])"));
}
