//! Clean-tree observation for C05: `Program::eval_version(budget, &PlutusV1 | &PlutusV2)` (and
//! therefore phase-two evaluation without explicit cost models / protocol version) charges
//! V1/V2 scripts with `CostModel::default()`, i.e. the Plutus V3 costing functions, not with
//! the V1/V2 cost model. For the division builtins the V3 model is a quadratic in both sizes
//! whereas every V1/V2 ledger model is `multiplied_sizes` below/above the diagonal.

use pallas_primitives::conway::Language;
use uplc::{
    ast::{NamedDeBruijn, Program},
    machine::{
        Machine,
        cost_model::{CostModel, ExBudget},
    },
    parser,
};

fn load(src: &str) -> Program<NamedDeBruijn> {
    parser::program(src).unwrap().try_into().unwrap()
}

#[test]
fn eval_version_v2_uses_the_v2_cost_model() {
    let src = "(program 1.0.0 [(builtin divideInteger) (con integer 1606938044258990275541962092341162602522202993782792835301376) (con integer 3)])";

    for language in [Language::PlutusV1, Language::PlutusV2] {
        let via_default = load(src).eval_version(ExBudget::default(), &language).cost();

        // The language's own cost model, explicitly.
        let own_model = match language {
            Language::PlutusV1 => CostModel::v1(),
            _ => CostModel::v2(),
        };
        let unlimited = ExBudget::max();
        let mut machine = Machine::new(language.clone(), own_model, unlimited, 200);
        machine.run(load(src).term).unwrap();
        let via_own_model = unlimited - machine.ex_budget;

        // Same thing through the protocol-aware default.
        let via_protocol = load(src)
            .eval_version_with_protocol(ExBudget::default(), &language, 11)
            .cost();

        assert_eq!(via_own_model, via_protocol, "{language:?}");
        assert_eq!(via_own_model, via_default, "{language:?}");
    }
}
