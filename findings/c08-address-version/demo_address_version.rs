//! C08, CLEAN TREE -- `aiken blueprint address` / `aiken blueprint hash` (both go through
//! `Project::address`) do not report the address / hash of the script published in the blueprint
//! when the blueprint isn't a Plutus V3 one.
//!
//! `Project::address` hashes the compiled code with the language tag of the *project configuration*
//! (`self.config.plutus`, which `aiken.toml` only ever allows to be `v3`) instead of the Plutus
//! version of the loaded validator (the `SerializableProgram` variant, recovered from the published
//! `hash` when the blueprint is read). `Project::policy` (`aiken blueprint policy`) uses the latter.
//! So for a perfectly valid V2 blueprint (`plutusVersion: v2`, e.g. produced by an earlier compiler
//! and given with `--in`), `address`/`hash` silently return the blake2b-224(0x03 ++ code) credential
//! whereas the blueprint, `policy`, `convert` and the ledger all say blake2b-224(0x02 ++ code).
use aiken_project::{Project, telemetry::Terminal};
use pallas_crypto::hash::Hasher;
use serde_json::json;
use std::{fs, path::PathBuf};
use uplc::{
    ast::{DeBruijn, Program},
    parser,
};

fn fixture(name: &str, plutus_version: &str, language_tag: u8) -> (PathBuf, String) {
    let root = std::env::temp_dir().join(format!("baseline_c08c_{}_{name}", std::process::id()));
    let _ = fs::remove_dir_all(&root);
    fs::create_dir_all(&root).unwrap();

    fs::write(
        root.join("aiken.toml"),
        "name = \"foo/bar\"\nversion = \"0.0.0\"\nplutus = \"v3\"\n",
    )
    .unwrap();

    let program: Program<DeBruijn> =
        parser::program("(program 1.0.0 (lam datum (lam redeemer (lam ctx (con unit ())))))")
            .unwrap()
            .to_debruijn()
            .unwrap();

    let code = program.to_cbor().unwrap();
    let script_hash = hex::encode(Hasher::<224>::hash_tagged(&code, language_tag));

    let blueprint = json!({
        "preamble": { "title": "foo/bar", "version": "0.0.0", "plutusVersion": plutus_version },
        "validators": [
            {
                "title": "foo.thing.spend",
                "compiledCode": hex::encode(&code),
                "hash": script_hash,
            }
        ],
    });

    fs::write(
        root.join("plutus.json"),
        serde_json::to_string_pretty(&blueprint).unwrap(),
    )
    .unwrap();

    (root, script_hash)
}

fn check(name: &str, plutus_version: &str, language_tag: u8) {
    let (root, published_hash) = fixture(name, plutus_version, language_tag);
    let blueprint_path = root.join("plutus.json");

    let project = Project::new(root.clone(), Terminal).unwrap();

    // `aiken blueprint policy`
    let policy = project.policy(None, None, &blueprint_path).unwrap();

    // `aiken blueprint hash` == payment part of `aiken blueprint address`
    let address = project
        .address(None, None, None, &blueprint_path, false)
        .unwrap();

    let _ = fs::remove_dir_all(&root);

    assert_eq!(policy.to_string(), published_hash, "policy != published hash");

    assert_eq!(
        address.payment().to_hex(),
        published_hash,
        "{plutus_version}: payment credential of the address isn't the hash published in the blueprint"
    );
}

#[test]
fn v3_blueprint() {
    check("v3", "v3", 3);
}

#[test]
fn v2_blueprint() {
    check("v2", "v2", 2);
}

#[test]
fn v1_blueprint() {
    check("v1", "v1", 1);
}
