//! Baseline findings for property C19 (UNMODIFIED tree).
//!
//! Install: copy to crates/uplc/tests/baseline_c19c.rs
//! Run:     cargo test -p uplc --offline --test baseline_c19c
//!
//! Each test states what the property asks for; on the unmodified tree the
//! tests FAIL (that is the finding).

use pallas_codec::utils::{Bytes, CborWrap, MaybeIndefArray, NonEmptySet, Nullable, Set};
use pallas_crypto::hash::Hash;
use pallas_primitives::{
    Fragment,
    conway::{
        Certificate, ExUnits, PlutusScript, PostAlonzoTransactionOutput, PseudoScript, Redeemer,
        RedeemerTag, Redeemers, StakeCredential, TransactionBody, TransactionInput,
        TransactionOutput, Tx, Value, WitnessSet,
    },
};
use pallas_traverse::{ComputeHash, Era, MultiEraTx};
use uplc::{
    ast::{Data, DeBruijn, Program},
    machine::cost_model::ExBudget,
    parser,
    tx::{ResolvedInput, SlotConfig, eval_phase_two},
};

fn script_cbor(src: &str) -> Vec<u8> {
    let program: Program<DeBruijn> = parser::program(src).unwrap().try_into().unwrap();
    program.to_cbor().unwrap()
}

fn empty_body(inputs: Vec<TransactionInput>) -> TransactionBody {
    TransactionBody {
        inputs: Set::from(inputs),
        outputs: vec![],
        fee: 200_000,
        ttl: None,
        certificates: None,
        withdrawals: None,
        auxiliary_data_hash: None,
        validity_interval_start: None,
        mint: None,
        script_data_hash: None,
        collateral: None,
        required_signers: None,
        network_id: None,
        collateral_return: None,
        total_collateral: None,
        reference_inputs: None,
        voting_procedures: None,
        proposal_procedures: None,
        treasury_value: None,
        donation: None,
    }
}

fn empty_witnesses() -> WitnessSet {
    WitnessSet {
        vkeywitness: None,
        native_script: None,
        bootstrap_witness: None,
        plutus_v1_script: None,
        plutus_data: None,
        redeemer: None,
        plutus_v2_script: None,
        plutus_v3_script: None,
    }
}

fn redeemer(tag: RedeemerTag, index: u32) -> Redeemer {
    Redeemer {
        tag,
        index,
        data: Data::integer(42.into()),
        ex_units: ExUnits { mem: 0, steps: 0 },
    }
}

fn run(tx: Tx, utxos: &[ResolvedInput], run_phase_one: bool) -> Result<usize, String> {
    let tx_bytes = tx.encode_fragment().unwrap();
    let multi_era_tx = MultiEraTx::decode_for_era(Era::Conway, &tx_bytes).unwrap();
    let minted = multi_era_tx.as_conway().unwrap();

    eval_phase_two(
        minted,
        utxos,
        None,
        Some(&ExBudget::default()),
        &SlotConfig::default(),
        run_phase_one,
        |_| (),
    )
    .map(|results| results.len())
    .map_err(|e| e.to_string())
}

/// F1. A resolved input that carries a reference script which the transaction
/// does not need makes the simulation fail in the phase-one subset
/// ("extra" script), although no script fails and nothing is missing. The
/// ledger only rejects extraneous scripts of the *witness set*.
#[test]
fn f1_unneeded_reference_script_in_a_resolved_input() {
    let always = PlutusScript::<3>(Bytes::from(script_cbor(
        "(program 1.1.0 (lam ctx (con unit ())))",
    )));
    let unrelated = PlutusScript::<3>(Bytes::from(script_cbor(
        "(program 1.1.0 (lam ctx [(lam x (con unit ())) ctx]))",
    )));

    let mut script_address = vec![0x70u8];
    script_address.extend_from_slice(always.compute_hash().as_ref());

    let mut key_address = vec![0x60u8];
    key_address.extend_from_slice(&[0x11u8; 28]);

    let spent = TransactionInput {
        transaction_id: Hash::from([7u8; 32]),
        index: 0,
    };
    let referenced = TransactionInput {
        transaction_id: Hash::from([8u8; 32]),
        index: 0,
    };

    let utxos = vec![
        ResolvedInput {
            input: spent.clone(),
            output: TransactionOutput::PostAlonzo(PostAlonzoTransactionOutput {
                address: Bytes::from(script_address),
                value: Value::Coin(2_000_000),
                datum_option: None,
                script_ref: None,
            }),
        },
        // e.g. an oracle UTxO read for its datum, that also happens to hold
        // somebody's deployed script.
        ResolvedInput {
            input: referenced.clone(),
            output: TransactionOutput::PostAlonzo(PostAlonzoTransactionOutput {
                address: Bytes::from(key_address),
                value: Value::Coin(2_000_000),
                datum_option: None,
                script_ref: Some(CborWrap(PseudoScript::PlutusV3Script(unrelated))),
            }),
        },
    ];

    let tx = Tx {
        transaction_body: TransactionBody {
            reference_inputs: NonEmptySet::from_vec(vec![referenced]),
            ..empty_body(vec![spent])
        },
        transaction_witness_set: WitnessSet {
            plutus_v3_script: NonEmptySet::from_vec(vec![always]),
            redeemer: Some(Redeemers::List(MaybeIndefArray::Def(vec![redeemer(
                RedeemerTag::Spend,
                0,
            )]))),
            ..empty_witnesses()
        },
        success: true,
        auxiliary_data: Nullable::Null,
    };

    assert_eq!(run(tx.clone(), &utxos, false), Ok(1));
    assert_eq!(run(tx, &utxos, true), Ok(1));
}

/// F2. A Conway stake registration certificate with a deposit (`reg_cert`,
/// tag 7) of a *script* credential needs that script and a `Publish` redeemer
/// (ledger: `getScriptWitnessConwayTxCert (ConwayRegCert c (SJust _))`).
/// `find_script` knows it, the phase-one subset does not: it reports both the
/// script and the redeemer as extraneous.
#[test]
fn f2_reg_cert_of_a_script_credential() {
    let always = PlutusScript::<3>(Bytes::from(script_cbor(
        "(program 1.1.0 (lam ctx (con unit ())))",
    )));

    let mut key_address = vec![0x60u8];
    key_address.extend_from_slice(&[0x11u8; 28]);

    let spent = TransactionInput {
        transaction_id: Hash::from([7u8; 32]),
        index: 0,
    };

    let utxos = vec![ResolvedInput {
        input: spent.clone(),
        output: TransactionOutput::PostAlonzo(PostAlonzoTransactionOutput {
            address: Bytes::from(key_address),
            value: Value::Coin(5_000_000),
            datum_option: None,
            script_ref: None,
        }),
    }];

    let tx = Tx {
        transaction_body: TransactionBody {
            certificates: NonEmptySet::from_vec(vec![Certificate::Reg(
                StakeCredential::ScriptHash(always.compute_hash()),
                2_000_000,
            )]),
            ..empty_body(vec![spent])
        },
        transaction_witness_set: WitnessSet {
            plutus_v3_script: NonEmptySet::from_vec(vec![always]),
            redeemer: Some(Redeemers::List(MaybeIndefArray::Def(vec![redeemer(
                RedeemerTag::Cert,
                0,
            )]))),
            ..empty_witnesses()
        },
        success: true,
        auxiliary_data: Nullable::Null,
    };

    assert_eq!(run(tx.clone(), &utxos, false), Ok(1));
    assert_eq!(run(tx, &utxos, true), Ok(1));
}
