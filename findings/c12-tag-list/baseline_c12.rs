//! C12 baseline findings: the UNMODIFIED tree already violates the property for these inputs.
//!
//! Install: copy to crates/aiken-project/tests/baseline_c12.rs
//! Run:     cargo test --offline -p aiken-project --test baseline_c12 -- --test-threads=1
//!
//! Every test below FAILS on the unmodified tree (each failure message states the disagreement
//! between the blueprint schema and the compiled code). `control_*` tests pass and show the
//! harness itself is sound.
use aiken_lang::ast::{TraceLevel, Tracing};
use aiken_project::{
    Project, blueprint::Blueprint, options::BlueprintExport, telemetry::EventListener,
};
use std::{fs, path::PathBuf};
use uplc::{
    PlutusData,
    ast::{Constant, Data},
    machine::cost_model::ExBudget,
};

#[derive(Debug, Clone, Copy)]
struct Noop;
impl EventListener for Noop {}

struct Harness {
    root: PathBuf,
    project: Project<Noop>,
    blueprint: Blueprint,
}

const TRACING: Tracing = Tracing::All(TraceLevel::Verbose);

const VALIDATOR: &str = r#"
use types.{T}

validator v {
  mint(_r: T, _p: ByteArray, _tx: Data) {
    True
  }

  else(_) {
    fail
  }
}
"#;

impl Harness {
    fn new(name: &str, types_src: &str, validator_src: &str) -> Self {
        let root = std::env::temp_dir().join(format!("c12-base-{name}-{}", std::process::id()));
        let _ = fs::remove_dir_all(&root);
        fs::create_dir_all(root.join("lib")).unwrap();
        fs::create_dir_all(root.join("validators")).unwrap();
        fs::write(
            root.join("aiken.toml"),
            "name = \"demo/c12\"\nversion = \"0.0.0\"\nplutus = \"v3\"\nlicense = \"Apache-2.0\"\n",
        )
        .unwrap();
        fs::write(root.join("lib/types.ak"), types_src).unwrap();
        fs::write(root.join("validators/v.ak"), validator_src).unwrap();
        let mut project = Project::new(root.clone(), Noop).expect("project loads");
        let path = root.join("plutus.json");
        project
            .build(
                false,
                TRACING,
                path.clone(),
                BlueprintExport::OnlyBinaryInterface,
                None,
            )
            .unwrap_or_else(|e| panic!("build failed: {e:#?}"));
        let blueprint = Project::<Noop>::blueprint(&path).expect("blueprint reads back");
        Harness {
            root,
            project,
            blueprint,
        }
    }

    /// Does the schema published for the redeemer (type `types.T`) accept `d`?
    fn schema_accepts(&self, d: &PlutusData) -> bool {
        self.blueprint.validators[0]
            .redeemer
            .as_ref()
            .unwrap()
            .validate(&self.blueprint.definitions, &Constant::Data(d.clone()))
            .is_ok()
    }

    /// Does `fn accepts(d: Data) -> Bool { expect _: T = d  True }` succeed on `d`?
    fn code_accepts(&self, d: &PlutusData) -> bool {
        let export = self.project.export("types", "accepts", TRACING).unwrap();
        export
            .program
            .inner()
            .apply_data(d.clone())
            .eval(ExBudget::max())
            .result()
            .is_ok()
    }

    /// Evaluate the nullary function `types.<func>` returning Data.
    fn run(&self, func: &str) -> PlutusData {
        let export = self.project.export("types", func, TRACING).unwrap();
        match export.program.inner().eval(ExBudget::max()).result() {
            Ok(uplc::ast::Term::Constant(c)) => match c.as_ref() {
                Constant::Data(d) => d.clone(),
                other => panic!("not data: {other:?}"),
            },
            other => panic!("evaluation failed: {other:?}"),
        }
    }

    fn assert_agree(&self, label: &str, d: &PlutusData) {
        let (s, c) = (self.schema_accepts(d), self.code_accepts(d));
        assert_eq!(
            s, c,
            "'{label}': blueprint schema accepts = {s}, compiled `expect` accepts = {c}"
        );
    }
}

impl Drop for Harness {
    fn drop(&mut self) {
        let _ = fs::remove_dir_all(&self.root);
    }
}

fn int(i: i64) -> PlutusData {
    Data::integer(i.into())
}

fn bytes(b: &[u8]) -> PlutusData {
    Data::bytestring(b.to_vec())
}

fn mint_ctx(redeemer: PlutusData) -> PlutusData {
    Data::constr(
        0,
        vec![int(0), redeemer, Data::constr(0, vec![bytes(b"policy")])],
    )
}

const ACCEPTS: &str = "\npub fn accepts(d: Data) -> Bool {\n  expect _: T = d\n  True\n}\n";

#[test]
fn control_plain_record() {
    let h = Harness::new(
        "control",
        &format!("pub type T {{\n  x: Int,\n  y: ByteArray,\n}}\n{ACCEPTS}"),
        VALIDATOR,
    );
    h.assert_agree("ok", &Data::constr(0, vec![int(1), bytes(b"")]));
    h.assert_agree("wrong tag", &Data::constr(1, vec![int(1), bytes(b"")]));
    h.assert_agree("extra field", &Data::constr(0, vec![int(1), bytes(b""), int(1)]));
    h.assert_agree("wrong leaf", &Data::constr(0, vec![int(1), int(1)]));
}

/// F1. A type-level `@tag(n)` on a single-constructor type written with an explicit constructor
/// (i.e. not the record shorthand) is honoured by the code generator (`constr.decorators
/// .chain(data_type.decorators)`) but ignored by the schema generator (which only looks at the
/// type-level decorators when `constructor.sugar`).
#[test]
fn f1_type_level_tag_on_explicit_single_constructor() {
    let h = Harness::new(
        "f1",
        &format!("@tag(3)\npub type T {{\n  Foo {{ x: Int }}\n}}\n{ACCEPTS}\npub fn sample() -> Data {{\n  let t: T = Foo {{ x: 1 }}\n  let d: Data = t\n  d\n}}\n"),
        VALIDATOR,
    );
    let sample = h.run("sample");
    assert!(
        h.schema_accepts(&sample),
        "a value of type T serialised by the compiled code ({sample:?}) does not conform to the published schema"
    );
    h.assert_agree("Constr 3 [1]", &Data::constr(3, vec![int(1)]));
    h.assert_agree("Constr 0 [1]", &Data::constr(0, vec![int(1)]));
}

/// F2. Same as F1 with `@list`: the code generator encodes the value as a plain list, the schema
/// says constructor 0.
#[test]
fn f2_type_level_list_on_explicit_single_constructor() {
    let h = Harness::new(
        "f2",
        &format!("@list\npub type T {{\n  Foo {{ x: Int, y: Int }}\n}}\n{ACCEPTS}\npub fn sample() -> Data {{\n  let t: T = Foo {{ x: 1, y: 2 }}\n  let d: Data = t\n  d\n}}\n"),
        VALIDATOR,
    );
    let sample = h.run("sample");
    assert!(
        h.schema_accepts(&sample),
        "a value of type T serialised by the compiled code ({sample:?}) does not conform to the published schema"
    );
    h.assert_agree("[1, 2]", &Data::list(vec![int(1), int(2)]));
    h.assert_agree("Constr 0 [1, 2]", &Data::constr(0, vec![int(1), int(2)]));
}

/// F3. The schema generator keeps ONE mutable `type_parameters` map for the whole traversal and
/// never restores it. When a generic type is instantiated at another instance of itself
/// (`P<P<Int>>`), visiting the first field rebinds `a := Int`, so every later field of the outer
/// type that mentions `a` is described as `Int` instead of `P<Int>`.
#[test]
fn f3_generic_instantiated_at_itself() {
    let h = Harness::new(
        "f3",
        &format!("pub type P<a> {{\n  x: a,\n  y: a,\n}}\n\npub type T =\n  P<P<Int>>\n{ACCEPTS}\npub fn sample() -> Data {{\n  let t: T = P {{ x: P {{ x: 1, y: 2 }}, y: P {{ x: 3, y: 4 }} }}\n  let d: Data = t\n  d\n}}\n"),
        VALIDATOR,
    );
    let sample = h.run("sample");
    assert!(
        h.schema_accepts(&sample),
        "a value of type T serialised by the compiled code does not conform to the published schema"
    );
    let inner = Data::constr(0, vec![int(1), int(2)]);
    h.assert_agree("P { x: P{1,2}, y: 3 }", &Data::constr(0, vec![inner, int(3)]));
}

/// F4. Record update always rebuilds the record with constructor index 0
/// (`Term::constr_data().apply(Term::integer(0.into()))` in Air::RecordUpdate), ignoring `@tag`.
/// A value of type T produced by `T { ..t, x: 7 }` therefore serialises to `Constr 0 [..]`, which
/// neither the schema nor `expect` accept.
#[test]
fn f4_record_update_on_tagged_record() {
    let h = Harness::new(
        "f4",
        &format!("@tag(5)\npub type T {{\n  x: Int,\n  y: Int,\n}}\n{ACCEPTS}\npub fn make(n: Int) -> T {{\n  T {{ x: n, y: 2 }}\n}}\n\npub fn fresh() -> Data {{\n  let t: T = make(1)\n  let d: Data = t\n  d\n}}\n\npub fn updated() -> Data {{\n  let t: T = make(1)\n  let u = T {{ ..t, x: 7 }}\n  let d: Data = u\n  d\n}}\n"),
        VALIDATOR,
    );
    let fresh = h.run("fresh");
    assert!(h.schema_accepts(&fresh) && h.code_accepts(&fresh), "control");
    let updated = h.run("updated");
    assert!(
        h.schema_accepts(&updated),
        "a value of type T built with record-update serialises to {updated:?}, which does not conform to the published schema (constructor 5)"
    );
}

/// F5. The generated `expect` decoder binds record fields under their source labels, inside a
/// function whose own parameters are called `__param_0`, `then_delayed` and `otherwise_delayed`.
/// A field labelled `then_delayed` captures the continuation, so `expect` fails on every value.
#[test]
fn f5_field_label_captures_decoder_continuation() {
    let h = Harness::new(
        "f5",
        &format!("pub type T {{\n  then_delayed: Int,\n}}\n{ACCEPTS}"),
        VALIDATOR,
    );
    h.assert_agree("Constr 0 [1]", &Data::constr(0, vec![int(1)]));
}

/// F6. `cast_validator_args` converts validator parameters with `known_data_to_type` only when
/// their UPLC type is a primitive; for `None` (user types) it does nothing. A parameter whose type
/// carries `@list` is therefore never `unListData`-ed, although everywhere else such values are
/// held as builtin lists. The blueprint accepts the parameter, `blueprint apply` succeeds, and
/// the applied validator crashes as soon as the parameter is used.
#[test]
fn f6_list_decorated_validator_parameter() {
    let types = "@list\npub type L {\n  x: Int,\n  y: Int,\n}\n";
    let as_param = r#"
use types.{L}

validator v(p: L) {
  mint(_r: Data, _p: ByteArray, _tx: Data) {
    p.x == 1
  }

  else(_) {
    fail
  }
}
"#;
    let as_redeemer = r#"
use types.{L}

validator v {
  mint(r: L, _p: ByteArray, _tx: Data) {
    r.x == 1
  }

  else(_) {
    fail
  }
}
"#;
    let value = Data::list(vec![int(1), int(2)]);

    // control: the same value passed as a redeemer works.
    let h = Harness::new("f6r", types, as_redeemer);
    let v = &h.blueprint.validators[0];
    assert!(h.schema_accepts(&value));
    assert!(
        v.program
            .inner()
            .apply_data(mint_ctx(value.clone()))
            .eval(ExBudget::max())
            .result()
            .is_ok(),
        "control"
    );

    let h = Harness::new("f6p", types, as_param);
    let v = h.blueprint.validators[0].clone();
    let applied = v
        .apply(&h.blueprint.definitions, &value)
        .expect("the blueprint accepts the parameter");
    let result = applied
        .program
        .inner()
        .apply_data(mint_ctx(int(0)))
        .eval(ExBudget::max())
        .result();
    assert!(
        result.is_ok(),
        "parameter accepted by the blueprint schema but the applied validator fails with {result:?}"
    );
}
