//! Demonstration for the C19 finding "a Plutus V3 script that returns a non-unit value is reported as passing".
//!
//! Install: copy to crates/uplc/tests/demo_c19_v3_return.rs
//! Run:     cargo test -p uplc --test demo_c19_v3_return --offline
//!
//! A Conway transaction spends one output locked by a Plutus V3 validator (inline datum, validator and redeemer in
//! the witness set). Under the ledger rules a V3 script succeeds only if it evaluates to unit; `(con bool False)` or
//! `(con integer 1)` is a failed script, and phase two must fail. (mini CBOR helpers as in seeded/C19-m3's demo)

use pallas_primitives::{
    Fragment,
    conway::{Language, PlutusScript, Redeemer},
};
use pallas_traverse::ComputeHash;
use uplc::{
    ast::{DeBruijn, Program},
    parser, tx,
};

// ---------------------------------------------------------------- mini CBOR

fn head(major: u8, n: u64) -> Vec<u8> {
    let m = major << 5;
    if n < 24 {
        vec![m | n as u8]
    } else if n < 0x100 {
        vec![m | 24, n as u8]
    } else if n < 0x1_0000 {
        let mut v = vec![m | 25];
        v.extend_from_slice(&(n as u16).to_be_bytes());
        v
    } else if n < 0x1_0000_0000 {
        let mut v = vec![m | 26];
        v.extend_from_slice(&(n as u32).to_be_bytes());
        v
    } else {
        let mut v = vec![m | 27];
        v.extend_from_slice(&n.to_be_bytes());
        v
    }
}

fn uint(n: u64) -> Vec<u8> {
    head(0, n)
}

fn bytes(b: &[u8]) -> Vec<u8> {
    let mut v = head(2, b.len() as u64);
    v.extend_from_slice(b);
    v
}

fn arr(items: &[Vec<u8>]) -> Vec<u8> {
    let mut v = head(4, items.len() as u64);
    for i in items {
        v.extend_from_slice(i);
    }
    v
}

fn map(pairs: &[(Vec<u8>, Vec<u8>)]) -> Vec<u8> {
    let mut v = head(5, pairs.len() as u64);
    for (k, val) in pairs {
        v.extend_from_slice(k);
        v.extend_from_slice(val);
    }
    v
}

fn tag(n: u64, inner: Vec<u8>) -> Vec<u8> {
    let mut v = head(6, n);
    v.extend_from_slice(&inner);
    v
}

// ---------------------------------------------------------------- fixture

struct Fixture {
    tx: Vec<u8>,
    utxos: Vec<(Vec<u8>, Vec<u8>)>,
}

fn fixture(script_src: &str) -> Fixture {
    let program: Program<DeBruijn> = parser::program(script_src).unwrap().try_into().unwrap();
    let script = program.to_cbor().unwrap();
    let script_hash = PlutusScript::<3>(script.clone().into()).compute_hash().to_vec();

    let key_address = {
        let mut a = vec![0x60];
        a.extend_from_slice(&[0x01; 28]);
        a
    };
    let script_address = {
        let mut a = vec![0x70];
        a.extend_from_slice(&script_hash);
        a
    };
    let unit_data = vec![0xd8, 0x79, 0x80];
    let script_input = arr(&[bytes(&[0x11; 32]), uint(0)]);
    let script_output = map(&[
        (uint(0), bytes(&script_address)),
        (uint(1), uint(2_000_000)),
        (uint(2), arr(&[uint(1), tag(24, bytes(&unit_data))])),
    ]);
    let body = map(&[
        (uint(0), arr(&[script_input.clone()])),
        (uint(1), arr(&[map(&[(uint(0), bytes(&key_address)), (uint(1), uint(1_000_000))])])),
        (uint(2), uint(1_000_000)),
    ]);
    let witnesses = map(&[
        (uint(5), arr(&[arr(&[uint(0), uint(0), unit_data.clone(), arr(&[uint(0), uint(0)])])])),
        (uint(7), arr(&[bytes(&script)])),
    ]);
    Fixture {
        tx: arr(&[body, witnesses, vec![0xf5], vec![0xf6]]),
        utxos: vec![(script_input, script_output)],
    }
}

fn simulate(fx: &Fixture) -> Result<usize, String> {
    tx::eval_phase_two_raw(&fx.tx, &fx.utxos, None, (10_000_000_000, 14_000_000), (1660003200000, 0, 1000), false, |_| ())
        .map(|results| {
            for (bytes, _) in &results {
                Redeemer::decode_fragment(bytes).unwrap();
            }
            results.len()
        })
        .map_err(|e| e.to_string())
}

#[test]
fn a_v3_script_returning_unit_passes() {
    assert_eq!(simulate(&fixture("(program 1.1.0 (lam ctx (con unit ())))")), Ok(1));
}

#[test]
fn a_v3_script_returning_false_fails_the_simulation() {
    let r = simulate(&fixture("(program 1.1.0 (lam ctx (con bool False)))"));
    assert!(r.is_err(), "a V3 script evaluated to `False` and phase two reported success: {r:?}");
}

#[test]
fn a_v3_script_returning_an_integer_fails_the_simulation() {
    let r = simulate(&fixture("(program 1.1.0 (lam ctx (con integer 1)))"));
    assert!(r.is_err(), "a V3 script evaluated to an integer and phase two reported success: {r:?}");
}

#[test]
fn a_v3_script_that_errors_fails_the_simulation() {
    assert!(simulate(&fixture("(program 1.1.0 (lam ctx (error)))")).is_err());
}
