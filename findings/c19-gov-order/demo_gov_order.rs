// copy to crates/uplc/tests/demo_gov_order.rs ; cargo test -p uplc --offline --test demo_gov_order
//
// The ledger keeps the withdrawals of a TreasuryWithdrawals action in a `Map RewardAccount Coin` and the members of an
// UpdateCommittee action in a `Set` / `Map` of credentials: whatever order the transaction's bytes list them in, the
// script context lists them in key order (script credentials before key credentials, then by hash) — the same order aiken
// already gives to the transaction's own withdrawals. A proposal whose CBOR lists them differently must therefore give
// the same script context as one that lists them in key order.
use pallas_codec::utils::{KeyValuePairs, Nullable, Set};
use pallas_primitives::conway::{GovAction, RationalNumber, StakeCredential};
use uplc::tx::to_plutus_data::ToPlutusData;

fn reward_account(header: u8, fill: u8) -> pallas_codec::utils::Bytes {
    let mut v = vec![header];
    v.extend(std::iter::repeat(fill).take(28));
    v.into()
}

#[test]
fn treasury_withdrawals_are_listed_in_key_order() {
    // 0xe0 = key-hash stake address (testnet), 0xf0 = script stake address (testnet)
    let key_aa = reward_account(0xe0, 0xaa);
    let key_11 = reward_account(0xe0, 0x11);
    let script_ff = reward_account(0xf0, 0xff);
    let canonical = GovAction::TreasuryWithdrawals(
        KeyValuePairs::from(vec![(script_ff.clone(), 3), (key_11.clone(), 2), (key_aa.clone(), 1)]),
        Nullable::Null,
    );
    let wire = GovAction::TreasuryWithdrawals(
        KeyValuePairs::from(vec![(key_aa, 1), (script_ff, 3), (key_11, 2)]),
        Nullable::Null,
    );
    assert_eq!(
        canonical.to_plutus_data(),
        wire.to_plutus_data(),
        "the same withdrawals, listed in another order in the transaction, give another script context"
    );
}

#[test]
fn committee_members_are_listed_in_key_order() {
    let k = |b: u8| StakeCredential::AddrKeyhash([b; 28].into());
    let s = |b: u8| StakeCredential::ScriptHash([b; 28].into());
    let quorum = RationalNumber { numerator: 1, denominator: 2 };
    let canonical = GovAction::UpdateCommittee(
        Nullable::Null,
        Set::from(vec![s(0xff), k(0x11), k(0xaa)]),
        KeyValuePairs::from(vec![(s(0xee), 10), (k(0x01), 20), (k(0x02), 30)]),
        quorum.clone(),
    );
    let wire = GovAction::UpdateCommittee(
        Nullable::Null,
        Set::from(vec![k(0xaa), s(0xff), k(0x11)]),
        KeyValuePairs::from(vec![(k(0x02), 30), (s(0xee), 10), (k(0x01), 20)]),
        quorum,
    );
    assert_eq!(canonical.to_plutus_data(), wire.to_plutus_data());
}
