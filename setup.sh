#!/bin/sh
# Build the analysis engines from files on disk only (offline).
set -e
cd "$(dirname "$0")"
export CARGO_NET_OFFLINE=true
(cd engine-shape && cargo build --release --offline)
if [ -d engine-flow ]; then
  ./engine-flow/build.sh
fi
echo "setup: ok"
